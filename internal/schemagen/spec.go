package schemagen

import (
	"fmt"
	"reflect"
	"strings"
)

// FieldSpec is one struct field of a generated model: a leaf (Kind != nil) or
// an embedded struct (Embedded != nil).
type FieldSpec struct {
	Name string // Go field name (exported)
	Kind *Kind

	// leaf tags
	Column        string   // column: tag ("" = naming strategy)
	Default       *Default // default: tag
	AutoTime      string   // "", "autoCreateTime", "autoCreateTime:milli", "autoUpdateTime:nano", … or "name" (CreatedAt/UpdatedAt by name)
	PrimaryKey    bool
	AutoIncTag    string   // "", "autoIncrement", "autoIncrement:false"
	Marker        bool     // the marker column of the oracle
	Shadowed      bool     // generator note: an outer field of the model takes this field's column (evolve skips it)
	Index         string   // C20: "", "index", "index:name", "uniqueIndex", "index:,composite:grp" …
	Unique        bool     // C20: unique
	Check         string   // C20: text after "check:"
	CheckName     string   // C20: explicit constraint name ("" = naming strategy)
	Size          int      // C20: size:
	NotNull       bool     // C20: not null
	Extra         []string // C20: further tag parts without effect on the stored values (type:varchar(n), comment:…, precision:…)
	DistinctValue bool     // values of this column must be pairwise distinct (unique / key)
	ValuesNotNull bool     // generator hint: values are never NULL (a later model version declares the column not null)

	// embedded struct
	Embedded *StructSpec
	Prefix   string // embeddedPrefix ("" = none)
	Ptr      bool   // field type is a pointer to the embedded struct
	// Anonymous: a Go anonymous (embedded) field without the `embedded` tag
	Anonymous bool
	// FixedType: the embedded struct is this existing Go type (gorm.Model); Embedded describes its fields
	FixedType reflect.Type

	// Ignored: a `gorm:"-"` field: no column, never written, never loaded
	Ignored bool
	// TagStyle: 0 as documented (primaryKey, column:…), 1 upper-case keys (PRIMARYKEY, COLUMN:…), 2 snake alias (primary_key)
	TagStyle int
	// TagSpace: 0 `a;b:c`, 1 `a; b:c`, 2 `a;  b :c` (blanks before and after the keys only: values are taken verbatim)
	TagSpace int
}

// StructSpec is an ordered list of fields.
type StructSpec struct {
	Fields []*FieldSpec
	// NoLowerCase: the handle's NamingStrategy has NoLowerCase set: a column is named like its field
	NoLowerCase bool
}

// Tag renders the gorm tag of the field.
func (f *FieldSpec) Tag() string {
	parts := f.tagParts()
	for i, p := range parts {
		switch f.TagStyle {
		case 1:
			if j := strings.Index(p, ":"); j >= 0 {
				parts[i] = strings.ToUpper(p[:j]) + p[j:]
			} else {
				parts[i] = strings.ToUpper(p)
			}
		case 2:
			if p == "primaryKey" {
				parts[i] = "primary_key"
			}
		}
	}
	// spacing: gorm trims the keys, so blanks after `;` and before `:` change nothing
	sep := ";"
	switch f.TagSpace {
	case 1:
		sep = "; "
	case 2:
		sep = ";  "
		for i, p := range parts {
			if j := strings.Index(p, ":"); j >= 0 {
				parts[i] = p[:j] + " " + p[j:]
			}
		}
	}
	return strings.Join(parts, sep)
}

func (f *FieldSpec) tagParts() []string {
	var parts []string
	if f.FixedType != nil {
		return nil
	}
	if f.Ignored {
		return []string{"-"}
	}
	if f.Embedded != nil {
		if !f.Anonymous {
			parts = append(parts, "embedded")
		}
		if f.Prefix != "" {
			parts = append(parts, "embeddedPrefix:"+f.Prefix)
		}
		return parts
	}
	if f.Column != "" {
		parts = append(parts, "column:"+f.Column)
	}
	parts = append(parts, f.Kind.BaseTag...)
	if f.PrimaryKey {
		parts = append(parts, "primaryKey")
	}
	if f.AutoIncTag != "" {
		parts = append(parts, f.AutoIncTag)
	}
	if f.Default != nil {
		parts = append(parts, "default:"+f.Default.Tag)
	}
	if f.AutoTime != "" && f.AutoTime != "name" {
		parts = append(parts, f.AutoTime)
	}
	if f.Size > 0 {
		parts = append(parts, fmt.Sprintf("size:%d", f.Size))
	}
	if f.NotNull {
		parts = append(parts, "not null")
	}
	parts = append(parts, f.Extra...)
	if f.Unique {
		parts = append(parts, "unique")
	}
	if f.Index != "" {
		parts = append(parts, strings.Split(f.Index, ";")...)
	}
	if f.Check != "" {
		if f.CheckName != "" {
			parts = append(parts, "check:"+f.CheckName+","+f.Check)
		} else {
			parts = append(parts, "check:"+f.Check)
		}
	}
	return parts
}

// String renders the spec canonically.
func (s *StructSpec) String() string {
	var sb strings.Builder
	sb.WriteByte('{')
	for i, f := range s.Fields {
		if i > 0 {
			sb.WriteString("; ")
		}
		if f.Anonymous {
			sb.WriteString("(anonymous)")
		}
		sb.WriteString(f.Name)
		sb.WriteByte(' ')
		if f.Embedded != nil {
			if f.Ptr {
				sb.WriteByte('*')
			}
			sb.WriteString(f.Embedded.String())
		} else {
			sb.WriteString(f.Kind.Name)
		}
		if t := f.Tag(); t != "" {
			sb.WriteString(" `" + t + "`")
		}
	}
	sb.WriteByte('}')
	return sb.String()
}

// Type builds the struct type with reflect.StructOf.
func (s *StructSpec) Type() reflect.Type {
	fields := make([]reflect.StructField, len(s.Fields))
	for i, f := range s.Fields {
		sf := reflect.StructField{Name: f.Name, Anonymous: f.Anonymous}
		if f.Embedded != nil {
			sf.Type = f.Embedded.Type()
			if f.FixedType != nil {
				sf.Type = f.FixedType
			}
			if f.Ptr {
				sf.Type = reflect.PointerTo(sf.Type)
			}
		} else {
			sf.Type = f.Kind.Type
		}
		if t := f.Tag(); t != "" {
			sf.Tag = reflect.StructTag(`gorm:"` + t + `"`)
		}
		fields[i] = sf
	}
	return reflect.StructOf(fields)
}

// Leaf is one column of a model: the path to the Go field and the column
// name the grammar expects (computed here, not taken from gorm).
type Leaf struct {
	Spec     *FieldSpec
	Kind     *Kind
	Path     []int  // struct field indexes from the model down
	PtrHop   []bool // PtrHop[i]: field Path[i] is a pointer to an embedded struct
	GoPath   string // "Home.City"
	DBName   string
	UnderPtr bool // below a pointer-embedded struct: absent ≡ zero ≡ NULL
}

// Model is a built model type.
type Model struct {
	Spec   *StructSpec
	Type   reflect.Type
	Leaves []*Leaf
	// Shadowed: fields of embedded structs whose column is taken by a field on a
	// shorter path (the outer field wins): not stored, not loaded.
	Shadowed []*Leaf
	// KeepGroups: pointer-embedded structs (keyed by GroupKeys) the record
	// generator never leaves nil; OnKeptGroup is called whenever that overrides a draw.
	KeepGroups  map[string]bool
	OnKeptGroup func()
}

// GroupKeys returns the keys of the pointer-embedded structs above the leaf.
func (l *Leaf) GroupKeys() []string {
	var out []string
	for h := range l.Path {
		if l.PtrHop[h] {
			out = append(out, fmt.Sprint(l.Path[:h+1]))
		}
	}
	return out
}

// Build computes the struct type and the expected columns.
func Build(s *StructSpec) *Model {
	m := &Model{Spec: s, Type: s.Type()}
	s0 := s
	var walk func(s *StructSpec, path []int, hops []bool, goPath, prefix string, under bool)
	walk = func(s *StructSpec, path []int, hops []bool, goPath, prefix string, under bool) {
		for i, f := range s.Fields {
			p := append(append([]int(nil), path...), i)
			gp := f.Name
			if goPath != "" {
				gp = goPath + "." + f.Name
			}
			if f.Embedded != nil {
				walk(f.Embedded, p, append(append([]bool(nil), hops...), f.Ptr), gp, prefix+f.Prefix, under || f.Ptr)
				continue
			}
			name := f.Column
			if name == "" {
				name = SnakeName(f.Name)
				if s0.NoLowerCase {
					name = f.Name
				}
			}
			if f.Ignored {
				m.Shadowed = append(m.Shadowed, &Leaf{Spec: f, Kind: f.Kind, Path: p, PtrHop: append(append([]bool(nil), hops...), false), GoPath: gp, DBName: "-", UnderPtr: under})
				continue
			}
			m.Leaves = append(m.Leaves, &Leaf{Spec: f, Kind: f.Kind, Path: p, PtrHop: append(append([]bool(nil), hops...), false),
				GoPath: gp, DBName: prefix + name, UnderPtr: under})
		}
	}
	walk(s, nil, nil, "", "", false)
	// two fields mapping to one column: the shortest path (the outermost field) owns it
	best := map[string]*Leaf{}
	for _, l := range m.Leaves {
		if b, ok := best[l.DBName]; !ok || len(l.Path) < len(b.Path) {
			best[l.DBName] = l
		}
	}
	var keep []*Leaf
	for _, l := range m.Leaves {
		if best[l.DBName] == l {
			keep = append(keep, l)
		} else {
			m.Shadowed = append(m.Shadowed, l)
		}
	}
	m.Leaves = keep
	return m
}

// Get returns the leaf's field value in rec (a struct value); ok is false when
// a pointer-embedded struct on the way is nil.
func (l *Leaf) Get(rec reflect.Value) (reflect.Value, bool) {
	v := rec
	for i, idx := range l.Path {
		v = v.Field(idx)
		if l.PtrHop[i] {
			if v.IsNil() {
				return reflect.Value{}, false
			}
			v = v.Elem()
		}
	}
	return v, true
}

// Set stores val in rec (addressable struct value), allocating pointer-embedded structs.
func (l *Leaf) Set(rec reflect.Value, val reflect.Value) {
	v := rec
	for i, idx := range l.Path {
		v = v.Field(idx)
		if l.PtrHop[i] {
			if v.IsNil() {
				v.Set(reflect.New(v.Type().Elem()))
			}
			v = v.Elem()
		}
	}
	v.Set(val)
}

// Canon is the canonical form of the leaf in rec ("absent" parents give the kind's zero form).
func (l *Leaf) Canon(rec reflect.Value) string {
	v, ok := l.Get(rec)
	if !ok {
		return l.Kind.ZeroCanon
	}
	return l.Norm(l.Kind.Canon(v))
}

// Norm applies the leaf's equivalences to a canonical form: below a
// pointer-embedded struct NULL ≡ zero value.
func (l *Leaf) Norm(c string) string {
	if l.NullIsZero() && c == Null {
		return l.Kind.ZeroCanon
	}
	return c
}

// NullIsZero: the column may hold NULL where the struct holds the zero value
// (leaf of a nil pointer-embedded struct, or a column whose zero fields are
// left to a database-side default such as `default:null`).
func (l *Leaf) NullIsZero() bool {
	return l.UnderPtr || (l.Spec.Default != nil && l.Spec.Default.DB)
}

// IsZero mirrors gorm's notion of a zero field (reflect zero; absent parent = zero).
func (l *Leaf) IsZero(rec reflect.Value) bool {
	v, ok := l.Get(rec)
	return !ok || v.IsZero()
}

// MarkerLeaf returns the marker column.
func (m *Model) MarkerLeaf() *Leaf {
	for _, l := range m.Leaves {
		if l.Spec.Marker {
			return l
		}
	}
	return nil
}

// KeyLeaves returns the primary key columns.
func (m *Model) KeyLeaves() []*Leaf {
	var out []*Leaf
	for _, l := range m.Leaves {
		if l.Spec.PrimaryKey {
			out = append(out, l)
		}
	}
	return out
}

// AutoKey returns the auto-increment key column gorm is expected to back-fill
// (nil when every key is caller supplied). Mirrors the documented rule: a sole
// integer primary key (or a field named ID) auto-increments unless tagged
// autoIncrement:false; among several keys only one tagged autoIncrement does.
func (m *Model) AutoKey() *Leaf {
	keys := m.KeyLeaves()
	for _, l := range keys {
		if l.Spec.AutoIncTag == "autoIncrement" {
			return l
		}
	}
	if len(keys) == 1 && keys[0].Kind.AutoInc && keys[0].Spec.AutoIncTag == "" {
		return keys[0]
	}
	// among several keys an integer key field named ID is the prioritized one and auto-increments
	for _, l := range keys {
		if l.Spec.Name == "ID" && len(l.Path) == 1 && l.Kind.AutoInc && l.Spec.AutoIncTag == "" {
			return l
		}
	}
	return nil
}

// names: Go field name → column name under gorm's default naming strategy
// (hand-written table; an independent statement of the naming contract).
var namePool = [][2]string{
	{"Alpha", "alpha"}, {"Beta", "beta"}, {"Gamma", "gamma"}, {"Delta", "delta"}, {"Omega", "omega"},
	{"UserName", "user_name"}, {"NickName", "nick_name"}, {"Age", "age"}, {"Score", "score"}, {"Balance", "balance"},
	{"IsActive", "is_active"}, {"Payload", "payload"}, {"Notes", "notes"}, {"BirthDay", "birth_day"}, {"Level", "level"},
	{"ItemID", "item_id"}, {"HTTPCode", "http_code"}, {"URLPath", "url_path"}, {"OwnerUUID", "owner_uuid"}, {"APIKey", "api_key"},
	{"Width", "width"}, {"Height", "height"}, {"Weight", "weight"}, {"Rating", "rating"}, {"Flags", "flags"},
	{"ZipCode", "zip_code"}, {"Street", "street"}, {"City", "city"}, {"Country", "country"}, {"Phone", "phone"},
	{"A", "a"}, {"Bb", "bb"}, {"X1", "x1"}, {"Y2z", "y2z"}, {"Extra", "extra"}, {"Detail", "detail"}, {"Summary", "summary"},
	{"LastSeen", "last_seen"}, {"ExpiresOn", "expires_on"}, {"Quota", "quota"},
}

var nameMap = func() map[string]string {
	m := map[string]string{"ID": "id", "Marker": "marker", "CreatedAt": "created_at", "UpdatedAt": "updated_at", "DeletedAt": "deleted_at", "OwnerID": "owner_id"}
	for _, p := range namePool {
		m[p[0]] = p[1]
	}
	return m
}()

// SnakeName is the expected column name of a Go field name of the grammar.
func SnakeName(goName string) string {
	if s, ok := nameMap[goName]; ok {
		return s
	}
	// generated suffix names: Name + "V" + digits (v2 fields of C20): NameV2 → name_v2
	panic("schemagen: no column name known for field " + goName)
}

// nameIsColumn: the leaf's Go name is also the column name of another leaf, so
// a map key spelled like it means that column (column names win in gorm's lookup).
func (m *Model) nameIsColumn(l *Leaf) bool {
	for _, x := range m.Leaves {
		if x != l && x.DBName == l.Spec.Name {
			return true
		}
	}
	// ... or another field (of an embedded struct) has the same Go name: the name does not identify one field
	for _, x := range append(append([]*Leaf{}, m.Leaves...), m.Shadowed...) {
		if x != l && x.Spec.Name == l.Spec.Name {
			return true
		}
	}
	return false
}

// HasCrossName reports whether a column is spelled like the Go name of another field
// (exact = case-sensitively equal).
func (m *Model) HasCrossName() (exact, caseOnly bool) {
	for _, a := range m.Leaves {
		for _, b := range m.Leaves {
			if a == b || a.Spec == b.Spec {
				continue
			}
			if a.DBName == b.Spec.Name {
				exact = true
			} else if strings.EqualFold(a.DBName, b.Spec.Name) {
				caseOnly = true
			}
		}
	}
	return
}
