package schemagen

import (
	"context"
	"fmt"
	"reflect"
	"sort"
	"strings"
	"time"

	"gorm.io/gorm"
	"gorm.io/gorm/clause"

	"verif/internal/testdb"
)

// Env is one table of one model on one database handle.
type Env struct {
	DB        *testdb.DB
	Table     string
	M         *Model
	Returning bool
	Now       time.Time // what Config.NowFunc returns
	// ExtraColumnsOK: the table may hold columns the model does not know (C20: v1 records read after migrate(v2))
	ExtraColumnsOK bool
	// Handle: "" / "fresh", "session", "context", "tx" (Create runs inside db.Transaction)
	Handle string
	shared *gorm.DB
	tx     *gorm.DB
}

// Handles: how the handle every operation starts from is obtained.
var Handles = []string{"fresh", "session", "context", "tx"}

type ctxKey struct{}

func (e *Env) base() *gorm.DB {
	if e.tx != nil {
		return e.tx
	}
	if e.Handle == "context" {
		return e.DB.DB.WithContext(context.WithValue(context.Background(), ctxKey{}, "c03"))
	}
	return e.DB.DB
}

// T returns a chain bound to the table (no model): a fresh chain per call, or
// (Handle "session") one Table(t).Session(&gorm.Session{}) handle used for every operation.
func (e *Env) T() *gorm.DB {
	if e.Handle == "session" && e.tx == nil {
		if e.shared == nil {
			e.shared = e.DB.DB.Table(e.Table).Session(&gorm.Session{})
		}
		return e.shared
	}
	return e.base().Table(e.Table)
}

// MT returns a chain with the model and the table.
func (e *Env) MT() *gorm.DB {
	if e.Handle == "session" && e.tx == nil {
		return e.T().Model(reflect.New(e.M.Type).Interface())
	}
	return e.base().Model(reflect.New(e.M.Type).Interface()).Table(e.Table)
}

// Migrate runs AutoMigrate for the model on the table.
func (e *Env) Migrate() error {
	return e.DB.DB.Table(e.Table).AutoMigrate(reflect.New(e.M.Type).Interface())
}

// CreatePaths of the grammar. Struct paths first, then map paths.
var (
	StructPaths = []string{"value", "slice", "ptrslice", "array", "batches", "batches-ptr", "slice-byvalue", "ptrslice-byvalue"}
	MapPaths    = []string{"map", "map-ptr", "map-model", "maps", "maps-ptr", "maps-model", "maps-ptr-model"}
)

// CreatePlan says how the records reach Create.
type CreatePlan struct {
	Path       string
	Batch      int  // CreateInBatches size
	KeysByName bool // map paths with a model: top-level leaves are keyed by Go field name
	// SessionBatch: struct slice paths go through Session(&gorm.Session{CreateBatchSize: n}) (0 = no)
	SessionBatch int
	// Returning: "" none; "all" Clauses(clause.Returning{}) (single struct only); "columns" Clauses(clause.Returning{Columns: every column})
	Returning string
	// NilMapAt: slice-of-maps paths: a nil map is put before the map of record NilMapAt-1 (0 = none). gorm
	// writes an all-NULL row for it (create.go skips it when handing out keys but counts its key)
	NilMapAt int
	// ExprValues: map paths give some integer / text values as clause.Expr{SQL: "(? + 0)", Vars: …}
	ExprValues bool
}

func (p CreatePlan) String() string {
	s := p.Path
	if strings.HasPrefix(p.Path, "batches") {
		s += fmt.Sprintf("(%d)", p.Batch)
	}
	if p.KeysByName {
		s += "+fieldnames"
	}
	if p.SessionBatch > 0 {
		s += fmt.Sprintf("+Session{CreateBatchSize:%d}", p.SessionBatch)
	}
	if p.Returning != "" {
		s += "+Returning{" + p.Returning + "}"
	}
	if p.ExprValues {
		s += "+exprvalues"
	}
	if p.NilMapAt > 0 {
		s += fmt.Sprintf("+nil-map-before-%d", p.NilMapAt-1)
	}
	return s
}

// IsMap reports whether the plan creates from maps.
func (p CreatePlan) IsMap() bool { return strings.HasPrefix(p.Path, "map") }

// WithModel reports whether a map plan names the model.
func (p CreatePlan) WithModel() bool { return strings.HasSuffix(p.Path, "-model") }

// Created is the outcome of a Create call.
type Created struct {
	Plan CreatePlan
	In   [][]string      // canonical input per record and leaf
	Zero [][]bool        // gorm-zero per record and leaf, before Create
	Mem  []reflect.Value // struct paths: the in-memory records after Create
	Maps []map[string]interface{}
	N    int
	// ShadowIn: canonical input of the shadowed fields (not stored; must stay as they are in memory)
	ShadowIn [][]string
}

// Create runs the plan. A panic inside gorm is returned as an error.
func (e *Env) Create(rs *Records, p CreatePlan) (c *Created, err error) {
	c = &Created{Plan: p, N: len(rs.Vals)}
	c.In, c.Zero = rs.Snapshot()
	for _, rec := range rs.Vals {
		var sh []string
		for _, l := range e.M.Shadowed {
			sh = append(sh, l.Canon(rec))
		}
		c.ShadowIn = append(c.ShadowIn, sh)
	}
	defer func() {
		if r := recover(); r != nil {
			err = fmt.Errorf("Create panicked: %v", r)
		}
	}()
	if e.Handle == "tx" && e.tx == nil {
		err = e.DB.DB.Transaction(func(tx *gorm.DB) error {
			e.tx = tx
			defer func() { e.tx = nil }()
			var ierr error
			c, ierr = e.Create(rs, p)
			return ierr
		})
		return c, err
	}
	T := e.M.Type
	n := len(rs.Vals)
	// chain: the handle a struct create starts from
	chain := func() *gorm.DB {
		db := e.T()
		if p.SessionBatch > 0 {
			db = db.Session(&gorm.Session{CreateBatchSize: p.SessionBatch})
		}
		switch p.Returning {
		case "all":
			db = db.Clauses(clause.Returning{})
		case "columns":
			var cols []clause.Column
			for _, l := range e.M.Leaves {
				cols = append(cols, clause.Column{Name: l.DBName})
			}
			db = db.Clauses(clause.Returning{Columns: cols})
		}
		return db
	}
	switch p.Path {
	case "value":
		for _, v := range rs.Vals {
			if err := chain().Create(v.Addr().Interface()).Error; err != nil {
				return c, err
			}
			c.Mem = append(c.Mem, v)
		}
	case "slice", "batches", "slice-byvalue":
		sl := reflect.New(reflect.SliceOf(T))
		sl.Elem().Set(reflect.MakeSlice(reflect.SliceOf(T), n, n))
		for i, v := range rs.Vals {
			sl.Elem().Index(i).Set(v)
		}
		var tx *gorm.DB
		switch p.Path {
		case "slice":
			tx = chain().Create(sl.Interface())
		case "slice-byvalue":
			tx = chain().Create(sl.Elem().Interface())
		default:
			tx = chain().CreateInBatches(sl.Interface(), p.Batch)
		}
		if tx.Error != nil {
			return c, tx.Error
		}
		if tx.RowsAffected != int64(n) {
			return c, fmt.Errorf("RowsAffected = %d after creating %d records", tx.RowsAffected, n)
		}
		for i := 0; i < n; i++ {
			c.Mem = append(c.Mem, sl.Elem().Index(i))
		}
	case "ptrslice", "batches-ptr", "ptrslice-byvalue":
		pt := reflect.PointerTo(T)
		sl := reflect.New(reflect.SliceOf(pt))
		sl.Elem().Set(reflect.MakeSlice(reflect.SliceOf(pt), n, n))
		for i, v := range rs.Vals {
			sl.Elem().Index(i).Set(v.Addr())
		}
		var tx *gorm.DB
		switch p.Path {
		case "ptrslice":
			tx = chain().Create(sl.Interface())
		case "ptrslice-byvalue":
			tx = chain().Create(sl.Elem().Interface())
		default:
			tx = chain().CreateInBatches(sl.Interface(), p.Batch)
		}
		if tx.Error != nil {
			return c, tx.Error
		}
		for i := 0; i < n; i++ {
			c.Mem = append(c.Mem, sl.Elem().Index(i).Elem())
		}
	case "array":
		arr := reflect.New(reflect.ArrayOf(n, T))
		for i, v := range rs.Vals {
			arr.Elem().Index(i).Set(v)
		}
		if err := chain().Create(arr.Interface()).Error; err != nil {
			return c, err
		}
		for i := 0; i < n; i++ {
			c.Mem = append(c.Mem, arr.Elem().Index(i))
		}
	default:
		if !p.IsMap() {
			return c, fmt.Errorf("harness: unknown create path %q", p.Path)
		}
		auto := e.M.AutoKey()
		for i, v := range rs.Vals {
			m := map[string]interface{}{}
			for j, l := range e.M.Leaves {
				if l == auto && c.Zero[i][j] {
					continue
				}
				key := l.DBName
				if p.WithModel() && p.KeysByName && len(l.Path) == 1 && !e.M.nameIsColumn(l) {
					key = l.Spec.Name
				}
				if fv, ok := l.Get(v); ok {
					m[key] = l.Kind.DBValue(fv)
					// documented "create from SQL expression": every third eligible value travels as clause.Expr
					if p.ExprValues && (i+j)%3 == 0 && !l.Spec.PrimaryKey && !l.Spec.Marker && m[key] != nil {
						switch l.Kind.Family {
						case FInt, FUint:
							m[key] = clause.Expr{SQL: "(? + 0)", Vars: []interface{}{m[key]}}
						case FString:
							m[key] = clause.Expr{SQL: "(? || '')", Vars: []interface{}{m[key]}}
						}
					}
				} else {
					m[key] = nil
				}
			}
			c.Maps = append(c.Maps, m)
		}
		db := e.T
		if p.WithModel() {
			db = e.MT
		}
		switch p.Path {
		case "map", "map-model":
			for _, m := range c.Maps {
				if err := db().Create(m).Error; err != nil {
					return c, err
				}
			}
		case "map-ptr":
			for i := range c.Maps {
				if err := db().Create(&c.Maps[i]).Error; err != nil {
					return c, err
				}
			}
		case "maps", "maps-model", "maps-ptr", "maps-ptr-model":
			all := c.Maps
			if p.NilMapAt > 0 && p.NilMapAt <= len(c.Maps) {
				k := p.NilMapAt - 1
				all = append(append(append([]map[string]interface{}{}, c.Maps[:k]...), nil), c.Maps[k:]...)
			}
			var err error
			if strings.HasPrefix(p.Path, "maps-ptr") {
				err = db().Create(&all).Error
			} else {
				err = db().Create(all).Error
			}
			if err != nil {
				return c, err
			}
			// what the caller's slice holds afterwards: the created maps in order (plus the nil one)
			var kept []map[string]interface{}
			for _, m := range all {
				if m != nil {
					kept = append(kept, m)
				}
			}
			c.Maps = kept
		default:
			return c, fmt.Errorf("harness: unknown create path %q", p.Path)
		}
	}
	return c, nil
}

// autoTimeCanon is what a zero auto-time field holds after Create.
func (e *Env) autoTimeCanon(l *Leaf) string {
	if l.Kind.Family == FTime {
		return cTime(e.Now)
	}
	switch {
	case strings.HasSuffix(l.Spec.AutoTime, ":nano"):
		return cInt(e.Now.UnixNano())
	case strings.HasSuffix(l.Spec.AutoTime, ":milli"):
		return cInt(e.Now.UnixMilli())
	}
	return cInt(e.Now.Unix())
}

// expect computes, per record and leaf, the canonical form the row must hold
// (row; "" = whatever the in-memory record carries: generated keys) and the
// form the in-memory record must carry after Create (mem; "" = unconstrained).
func (e *Env) expect(c *Created) (row, mem [][]string) {
	auto := e.M.AutoKey()
	for i := 0; i < c.N; i++ {
		r := make([]string, len(e.M.Leaves))
		m := make([]string, len(e.M.Leaves))
		for j, l := range e.M.Leaves {
			in, zero := c.In[i][j], c.Zero[i][j]
			sp := l.Spec
			switch {
			case l == auto && zero:
				// generated
			case c.Plan.IsMap() || !zero:
				r[j], m[j] = in, in
			case sp.Default != nil && !sp.Default.DB:
				r[j], m[j] = l.Norm(sp.Default.Canon), l.Norm(sp.Default.Canon)
			case sp.Default != nil && sp.Default.Canon == Any:
				// computed by the database: the row holds some non-NULL value; with
				// RETURNING the in-memory record carries the same one
				r[j], m[j] = Any, in
				if e.Returning {
					r[j], m[j] = "", Any
				}
			case sp.Default != nil:
				r[j] = l.Norm(sp.Default.Canon)
				if e.Returning {
					m[j] = r[j] // (4) database-generated default present in memory
				} else {
					m[j] = in
				}
			case sp.AutoTime != "":
				r[j], m[j] = e.autoTimeCanon(l), e.autoTimeCanon(l)
			default:
				r[j], m[j] = in, in
			}
		}
		row = append(row, r)
		mem = append(mem, m)
	}
	return
}

func (e *Env) markerOf(i int, c *Created) int64 {
	ml := e.M.MarkerLeaf()
	for j, l := range e.M.Leaves {
		if l == ml {
			var v int64
			fmt.Sscanf(c.In[i][j], "i:%d", &v)
			return v
		}
	}
	return 0
}

func quote(col string) string { return "`" + col + "`" }

// ReadPaths of the grammar.
var ReadPaths = []string{"find", "find-ptr", "first", "take", "last", "first-key", "first-inline", "take-inline", "last-inline", "find-inline", "find-reused", "find-in-batches", "first-pk-arg", "find-pk-list", "first-nilptr",
	"find-array", "find-presized", "scan", "rows-scanrows", "take-map", "take-map-byvalue", "take-map-model", "first-map-model", "find-maps", "find-maps-model"}

// ModelMapRead reports whether the read path loads into maps with the model named.
func ModelMapRead(path string) bool {
	return path == "take-map-model" || path == "first-map-model" || path == "find-maps-model"
}

// Check verifies the oracle of C03 for a finished Create; reads lists the
// additional read paths to exercise ("find" and "find-maps" always run).
func (e *Env) Check(c *Created, reads []string) error {
	row, memExp := e.expect(c)
	M := e.M
	auto := M.AutoKey()
	keys := M.KeyLeaves()
	ml := M.MarkerLeaf()
	lo, hi := e.markerOf(0, c), e.markerOf(c.N-1, c)

	// ---- (2) + (4): in-memory records after Create
	if !c.Plan.IsMap() {
		if len(c.Mem) != c.N {
			return fmt.Errorf("harness: %d in-memory records for %d inputs", len(c.Mem), c.N)
		}
		for i, rec := range c.Mem {
			for j, l := range M.Leaves {
				got := l.Canon(rec)
				if l == auto && c.Zero[i][j] {
					if got == l.Kind.ZeroCanon {
						return fmt.Errorf("record %d: auto-increment key %s is still zero after Create", i, l.GoPath)
					}
					continue
				}
				if memExp[i][j] == Any {
					if got == l.Kind.ZeroCanon {
						return fmt.Errorf("record %d field %s (%s): still zero in memory after Create: database default not written back", i, l.GoPath, l.Kind.Name)
					}
					continue
				}
				if memExp[i][j] != "" && got != memExp[i][j] {
					what := "changed by Create"
					if c.Zero[i][j] && l.Spec.Default != nil && l.Spec.Default.DB {
						what = "database default not written back"
					} else if c.Zero[i][j] && (l.Spec.Default != nil || l.Spec.AutoTime != "") {
						what = "default / auto time not applied in memory"
					}
					return fmt.Errorf("record %d field %s (%s): in memory after Create %s, want %s (input %s): %s", i, l.GoPath, l.Kind.Name, got, memExp[i][j], c.In[i][j], what)
				}
			}
		}
		for i, rec := range c.Mem {
			for j, l := range M.Shadowed {
				if got := l.Canon(rec); got != c.ShadowIn[i][j] {
					return fmt.Errorf("record %d field %s (shadowed by an outer field with the same column %s): in memory after Create %s, was %s", i, l.GoPath, l.DBName, got, c.ShadowIn[i][j])
				}
			}
		}
		// ---- (3) keys non-zero and distinct
		seen := map[string]int{}
		for i, rec := range c.Mem {
			var parts []string
			for _, l := range keys {
				k := l.Canon(rec)
				if k == l.Kind.ZeroCanon {
					return fmt.Errorf("record %d: key field %s is zero after Create", i, l.GoPath)
				}
				parts = append(parts, k)
			}
			ks := strings.Join(parts, "|")
			if prev, dup := seen[ks]; dup && len(keys) > 0 {
				return fmt.Errorf("records %d and %d carry the same key %s after Create", prev, i, ks)
			}
			seen[ks] = i
		}
	}

	// ---- (1) + (3): what the table holds, through Find into fresh structs
	want := func(i, j int) string {
		if row[i][j] != "" {
			return row[i][j]
		}
		if !c.Plan.IsMap() {
			return M.Leaves[j].Canon(c.Mem[i])
		}
		return ""
	}
	cmpStruct := func(path string, i int, rec reflect.Value) error {
		for j, l := range M.Leaves {
			w := want(i, j)
			if w == "" {
				continue
			}
			if w == Any {
				if l.Canon(rec) == l.Kind.ZeroCanon {
					return fmt.Errorf("%s: record %d field %s: the database default was not stored (loaded the zero value)", path, i, l.GoPath)
				}
				continue
			}
			if got := l.Canon(rec); got != w {
				return fmt.Errorf("%s: record %d (marker %d) field %s (%s, column %s): loaded %s, want %s (input %s)", path, i, e.markerOf(i, c), l.GoPath, l.Kind.Name, l.DBName, got, w, c.In[i][j])
			}
		}
		return nil
	}
	cmpMap := func(path string, i int, m map[string]interface{}) error {
		if len(m) != len(M.Leaves) && !e.ExtraColumnsOK {
			var names []string
			for k := range m {
				names = append(names, k)
			}
			sort.Strings(names)
			var exp []string
			for _, l := range M.Leaves {
				exp = append(exp, l.DBName)
			}
			return fmt.Errorf("%s: row of record %d has columns %v, want %v", path, i, names, exp)
		}
		for j, l := range M.Leaves {
			raw, ok := m[l.DBName]
			if !ok {
				return fmt.Errorf("%s: record %d: no column %q (field %s) in the loaded map", path, i, l.DBName, l.GoPath)
			}
			got, err := l.Kind.CanonRaw(raw)
			if err != nil {
				return fmt.Errorf("%s: record %d field %s (%s): %v", path, i, l.GoPath, l.Kind.Name, err)
			}
			got = l.Norm(got)
			w := want(i, j)
			if w == "" || (w == Any && got != Null) {
				continue
			}
			if got != w {
				return fmt.Errorf("%s: record %d (marker %d) field %s (%s, column %s): map holds %s, want %s (input %s)", path, i, e.markerOf(i, c), l.GoPath, l.Kind.Name, l.DBName, got, w, c.In[i][j])
			}
		}
		return nil
	}
	between := quote(ml.DBName) + " BETWEEN ? AND ?"
	byMarker := quote(ml.DBName) + " = ?"

	all := reflect.New(reflect.SliceOf(M.Type))
	if err := e.T().Where(between, lo, hi).Order(quote(ml.DBName)).Find(all.Interface()).Error; err != nil {
		return fmt.Errorf("find: %v", err)
	}
	if all.Elem().Len() != c.N {
		return fmt.Errorf("find: %d rows stored for %d created records", all.Elem().Len(), c.N)
	}
	for i := 0; i < c.N; i++ {
		if err := cmpStruct("find", i, all.Elem().Index(i)); err != nil {
			return err
		}
	}
	stored := func(i int) reflect.Value { return all.Elem().Index(i) }

	// a Find whose iteration fails at a later row (abs(-9223372036854775808) is an integer
	// overflow error in SQLite, raised when the scan reaches the row with record k's marker)
	// reports the error: it never returns the rows before it as if they were the whole result
	if c.N >= 2 {
		k := c.N - 1
		failing := "abs((" + quote(ml.DBName) + " = ?) * (-9223372036854775807 - 1)) >= 0 AND " + between
		var n int
		var err error
		if c.N%2 == 0 {
			out := reflect.New(reflect.SliceOf(M.Type))
			err = e.T().Where(failing, e.markerOf(k, c), lo, hi).Find(out.Interface()).Error
			n = out.Elem().Len()
		} else {
			var ms []map[string]interface{}
			err = e.T().Where(failing, e.markerOf(k, c), lo, hi).Find(&ms).Error
			n = len(ms)
		}
		if err == nil && n != c.N {
			return fmt.Errorf("find with a condition that fails on the row of record %d (marker %d): %d of %d rows returned and Error == nil (the iteration error was dropped)", k, e.markerOf(k, c), n, c.N)
		}
	}

	// (3) the row with record i's key holds record i's marker (raw SQL, independent of gorm's reader)
	if len(keys) > 0 && !c.Plan.IsMap() {
		for i, rec := range c.Mem {
			var conds []string
			var args []interface{}
			for _, l := range keys {
				v, _ := l.Get(rec)
				conds = append(conds, quote(l.DBName)+" = ?")
				args = append(args, l.Kind.DBValue(v))
			}
			var mk int64
			q := "SELECT " + quote(ml.DBName) + " FROM " + quote(e.Table) + " WHERE " + strings.Join(conds, " AND ")
			if err := e.DB.SQL.QueryRow(q, args...).Scan(&mk); err != nil {
				return fmt.Errorf("record %d: no row with the key it carries after Create %v: %v", i, args, err)
			}
			if mk != e.markerOf(i, c) {
				return fmt.Errorf("record %d (marker %d) carries key %v after Create, but the row with that key holds marker %d", i, e.markerOf(i, c), args, mk)
			}
		}
	}

	// map create paths: the key reported back in the map
	if c.Plan.IsMap() && auto != nil {
		keyName := "@id"
		if c.Plan.WithModel() {
			keyName = auto.DBName
		}
		if len(c.Maps) != c.N {
			return fmt.Errorf("%s: %d maps after Create of %d maps", c.Plan.Path, len(c.Maps), c.N)
		}
		for i, m := range c.Maps {
			if c.Zero[i][leafIndex(M, auto)] {
				raw, ok := m[keyName]
				if !ok {
					return fmt.Errorf("%s: map %d carries no %q after Create (map: %v)", c.Plan.Path, i, keyName, mapKeys(m))
				}
				got, err := auto.Kind.CanonRaw(raw)
				if err != nil {
					return fmt.Errorf("%s: map %d key %q: %v", c.Plan.Path, i, keyName, err)
				}
				if w := auto.Canon(stored(i)); got != w {
					return fmt.Errorf("%s: map %d (marker %d) carries %s = %s after Create, the row with its marker has key %s", c.Plan.Path, i, e.markerOf(i, c), keyName, got, w)
				}
			}
		}
	}

	// ---- further read paths
	reads = append([]string{"find-maps"}, reads...)
	for _, path := range reads {
		switch path {
		case "find":
		case "find-ptr":
			out := reflect.New(reflect.SliceOf(reflect.PointerTo(M.Type)))
			if err := e.T().Where(between, lo, hi).Order(quote(ml.DBName)).Find(out.Interface()).Error; err != nil {
				return fmt.Errorf("%s: %v", path, err)
			}
			if out.Elem().Len() != c.N {
				return fmt.Errorf("%s: %d rows for %d records", path, out.Elem().Len(), c.N)
			}
			for i := 0; i < c.N; i++ {
				if err := cmpStruct(path, i, out.Elem().Index(i).Elem()); err != nil {
					return err
				}
			}
		case "first", "take", "last":
			// consecutive single-row loads; every loaded record is compared right away and
			// once more after all later rows were loaded (nothing loaded later may change it)
			var dests []reflect.Value
			for i := 0; i < c.N; i++ {
				dest := reflect.New(M.Type)
				var err error
				switch path {
				case "first":
					err = e.T().Where(byMarker, e.markerOf(i, c)).First(dest.Interface()).Error
				case "last":
					err = e.T().Where(byMarker, e.markerOf(i, c)).Last(dest.Interface()).Error
				default:
					err = e.T().Where(byMarker, e.markerOf(i, c)).Take(dest.Interface()).Error
				}
				if err != nil {
					return fmt.Errorf("%s: record %d: %v", path, i, err)
				}
				if err := cmpStruct(path, i, dest.Elem()); err != nil {
					return err
				}
				dests = append(dests, dest)
			}
			for i, dest := range dests {
				if err := cmpStruct(path+" (re-checked after the later loads)", i, dest.Elem()); err != nil {
					return err
				}
			}
		case "find-reused":
			// a destination slice that served earlier queries: every slot up to its capacity holds an old record
			out := reflect.New(reflect.SliceOf(M.Type))
			out.Elem().Set(reflect.MakeSlice(reflect.SliceOf(M.Type), c.N+2, c.N+2))
			for i := 0; i < c.N+2; i++ {
				for _, l := range M.Leaves {
					if l.Kind.distinct != nil {
						l.Set(out.Elem().Index(i), l.Kind.Distinct(77))
					}
				}
			}
			if err := e.T().Where(between, lo, hi).Order(quote(ml.DBName)).Find(out.Interface()).Error; err != nil {
				return fmt.Errorf("%s: %v", path, err)
			}
			if out.Elem().Len() != c.N {
				return fmt.Errorf("%s: %d rows for %d records", path, out.Elem().Len(), c.N)
			}
			for i := 0; i < c.N; i++ {
				if err := cmpStruct(path, i, out.Elem().Index(i)); err != nil {
					return err
				}
			}
		case "find-in-batches":
			// FindInBatches reuses one destination slice for every batch (needs a prioritized key)
			if len(keys) != 1 && auto == nil {
				continue
			}
			byMk := map[int64]int{}
			for i := 0; i < c.N; i++ {
				byMk[e.markerOf(i, c)] = i
			}
			results := reflect.New(reflect.SliceOf(M.Type))
			seen := 0
			var ferr error
			err := e.T().Where(between, lo, hi).FindInBatches(results.Interface(), 1+c.N%3, func(tx *gorm.DB, batch int) error {
				for k := 0; k < results.Elem().Len() && ferr == nil; k++ {
					rec := results.Elem().Index(k)
					mv, _ := ml.Get(rec)
					i, ok := byMk[mv.Int()]
					if !ok {
						ferr = fmt.Errorf("%s: batch %d holds a row with marker %d that was not created", path, batch, mv.Int())
						break
					}
					seen++
					ferr = cmpStruct(path, i, rec)
				}
				return ferr
			}).Error
			if ferr != nil {
				return ferr
			}
			if err != nil {
				return fmt.Errorf("%s: %v", path, err)
			}
			if seen != c.N {
				return fmt.Errorf("%s: %d rows seen for %d records", path, seen, c.N)
			}
		case "first-key", "first-inline", "take-inline", "last-inline", "find-inline":
			if len(keys) == 0 {
				continue
			}
			for i := 0; i < c.N; i++ {
				dest := reflect.New(M.Type)
				tx := e.T()
				for _, l := range keys {
					v, _ := l.Get(stored(i))
					if path == "first-key" {
						tx = tx.Where(quote(l.DBName)+" = ?", l.Kind.DBValue(v))
					} else {
						l.Set(dest.Elem(), v)
					}
				}
				var err error
				switch path {
				case "take-inline":
					err = tx.Take(dest.Interface()).Error
				case "last-inline":
					err = tx.Last(dest.Interface()).Error
				case "find-inline":
					err = tx.Find(dest.Interface()).Error
				default:
					err = tx.First(dest.Interface()).Error
				}
				if err != nil {
					return fmt.Errorf("%s: record %d: %v", path, i, err)
				}
				if err := cmpStruct(path, i, dest.Elem()); err != nil {
					return err
				}
			}
		case "first-pk-arg", "find-pk-list":
			// the key given as inline argument: First(&v, 10) / Find(&vs, []int64{1, 2, 3}) (single integer key)
			if len(keys) != 1 || (keys[0].Kind.Family != FInt && keys[0].Kind.Family != FUint) {
				continue
			}
			var ids []int64
			for i := 0; i < c.N; i++ {
				v, _ := keys[0].Get(stored(i))
				ids = append(ids, keys[0].Kind.DBValue(v).(int64))
			}
			if path == "first-pk-arg" {
				for i := 0; i < c.N; i++ {
					dest := reflect.New(M.Type)
					if err := e.T().First(dest.Interface(), ids[i]).Error; err != nil {
						return fmt.Errorf("%s: record %d: %v", path, i, err)
					}
					if err := cmpStruct(path, i, dest.Elem()); err != nil {
						return err
					}
				}
			} else {
				out := reflect.New(reflect.SliceOf(M.Type))
				if err := e.T().Order(quote(ml.DBName)).Find(out.Interface(), ids).Error; err != nil {
					return fmt.Errorf("%s: %v", path, err)
				}
				if out.Elem().Len() != c.N {
					return fmt.Errorf("%s: %d rows for %d keys", path, out.Elem().Len(), c.N)
				}
				for i := 0; i < c.N; i++ {
					if err := cmpStruct(path, i, out.Elem().Index(i)); err != nil {
						return err
					}
				}
			}
		case "first-nilptr":
			// var p *T; First(&p)
			for i := 0; i < c.N; i++ {
				dest := reflect.New(reflect.PointerTo(M.Type))
				if err := e.T().Where(byMarker, e.markerOf(i, c)).First(dest.Interface()).Error; err != nil {
					return fmt.Errorf("%s: record %d: %v", path, i, err)
				}
				if dest.Elem().IsNil() {
					return fmt.Errorf("%s: record %d: the pointer is still nil after First", path, i)
				}
				if err := cmpStruct(path, i, dest.Elem().Elem()); err != nil {
					return err
				}
			}
		case "find-array", "find-presized", "scan":
			var out reflect.Value
			switch path {
			case "find-array":
				out = reflect.New(reflect.ArrayOf(c.N, M.Type))
			case "find-presized":
				// a slice the caller allocated and used before: capacity kept, old elements gone
				out = reflect.New(reflect.SliceOf(M.Type))
				out.Elem().Set(reflect.MakeSlice(reflect.SliceOf(M.Type), 2, c.N+3))
				if !c.Plan.IsMap() {
					out.Elem().Index(0).Set(c.Mem[c.N-1])
					out.Elem().Index(1).Set(c.Mem[0])
				}
			default:
				out = reflect.New(reflect.SliceOf(M.Type))
			}
			tx := e.T().Where(between, lo, hi).Order(quote(ml.DBName))
			var err error
			if path == "scan" {
				err = tx.Scan(out.Interface()).Error
			} else {
				err = tx.Find(out.Interface()).Error
			}
			if err != nil {
				return fmt.Errorf("%s: %v", path, err)
			}
			if out.Elem().Len() != c.N {
				return fmt.Errorf("%s: %d rows for %d records", path, out.Elem().Len(), c.N)
			}
			for i := 0; i < c.N; i++ {
				if err := cmpStruct(path, i, out.Elem().Index(i)); err != nil {
					return err
				}
			}
		case "rows-scanrows":
			rows, err := e.T().Where(between, lo, hi).Order(quote(ml.DBName)).Rows()
			if err != nil {
				return fmt.Errorf("%s: %v", path, err)
			}
			i := 0
			dest := reflect.New(M.Type) // one destination reused for every row, as in the documented loop
			for rows.Next() {
				if err := e.T().ScanRows(rows, dest.Interface()); err != nil {
					rows.Close()
					return fmt.Errorf("%s: row %d: %v", path, i, err)
				}
				if i < c.N {
					if err := cmpStruct(path, i, dest.Elem()); err != nil {
						rows.Close()
						return err
					}
				}
				i++
			}
			rows.Close()
			if i != c.N {
				return fmt.Errorf("%s: %d rows for %d records", path, i, c.N)
			}
		case "take-map-byvalue":
			for i := 0; i < c.N; i++ {
				m := map[string]interface{}{}
				if err := e.T().Where(byMarker, e.markerOf(i, c)).Take(m).Error; err != nil {
					return fmt.Errorf("%s: record %d: %v", path, i, err)
				}
				if err := cmpMap(path, i, m); err != nil {
					return err
				}
			}
		case "take-map", "take-map-model", "first-map-model":
			for i := 0; i < c.N; i++ {
				m := map[string]interface{}{}
				var err error
				switch path {
				case "take-map":
					err = e.T().Where(byMarker, e.markerOf(i, c)).Take(&m).Error
				case "take-map-model":
					err = e.MT().Where(byMarker, e.markerOf(i, c)).Take(&m).Error
				default:
					err = e.MT().Where(byMarker, e.markerOf(i, c)).First(&m).Error
				}
				if err != nil {
					return fmt.Errorf("%s: record %d: %v", path, i, err)
				}
				if err := cmpMap(path, i, m); err != nil {
					return err
				}
			}
		case "find-maps", "find-maps-model":
			var ms []map[string]interface{}
			db := e.T()
			if path == "find-maps-model" {
				db = e.MT()
			}
			if err := db.Where(between, lo, hi).Order(quote(ml.DBName)).Find(&ms).Error; err != nil {
				return fmt.Errorf("%s: %v", path, err)
			}
			if len(ms) != c.N {
				return fmt.Errorf("%s: %d rows for %d records", path, len(ms), c.N)
			}
			for i := 0; i < c.N; i++ {
				if err := cmpMap(path, i, ms[i]); err != nil {
					return err
				}
			}
		default:
			return fmt.Errorf("harness: unknown read path %q", path)
		}
	}
	return nil
}

func leafIndex(m *Model, l *Leaf) int {
	for j, x := range m.Leaves {
		if x == l {
			return j
		}
	}
	return -1
}

func mapKeys(m map[string]interface{}) []string {
	var ks []string
	for k := range m {
		ks = append(ks, k)
	}
	sort.Strings(ks)
	return ks
}

// DescribeRecords renders the records canonically (for case descriptors).
func DescribeRecords(m *Model, canon [][]string) string {
	var sb strings.Builder
	for i, rec := range canon {
		if i > 0 {
			sb.WriteString(" | ")
		}
		for j, c := range rec {
			if j > 0 {
				sb.WriteByte(',')
			}
			sb.WriteString(m.Leaves[j].GoPath + "=" + c)
		}
	}
	return sb.String()
}

// FixedClock returns a NowFunc pinned to now.
func FixedClock(now time.Time) func() time.Time { return func() time.Time { return now } }
