package schemagen

import (
	"fmt"
	"regexp"
	"strings"

	"gorm.io/gorm/schema"
	"pgregory.net/rapid"
)

// Clone deep-copies a spec (a struct embedded twice stays shared).
func (s *StructSpec) Clone() *StructSpec {
	memo := map[*StructSpec]*StructSpec{}
	var cp func(s *StructSpec) *StructSpec
	cp = func(s *StructSpec) *StructSpec {
		if c, ok := memo[s]; ok {
			return c
		}
		c := &StructSpec{NoLowerCase: s.NoLowerCase}
		memo[s] = c
		for _, f := range s.Fields {
			g := *f
			if f.Default != nil {
				d := *f.Default
				g.Default = &d
			}
			if f.Embedded != nil {
				g.Embedded = cp(f.Embedded)
			}
			c.Fields = append(c.Fields, &g)
		}
		return c
	}
	return cp(s)
}

// Evolve derives model v2 from v1: the same fields plus added nullable /
// defaulted fields (leaves and embedded structs at the end of the struct) and
// indexes / checks added to existing fields. It returns v2 and a description
// of every element added.
func Evolve(t *rapid.T, v1 *StructSpec, o GenOptions) (*StructSpec, []string) {
	v2 := v1.Clone()
	var added []string
	o.Migration, o.NoExprDefault, o.NoKeys, o.Addition = true, true, true, true

	// indexes / checks on existing leaves
	var leaves []*FieldSpec
	shared := map[*StructSpec]int{}
	var count func(s *StructSpec)
	count = func(s *StructSpec) {
		for _, f := range s.Fields {
			if f.Embedded != nil {
				shared[f.Embedded]++
				count(f.Embedded)
			}
		}
	}
	count(v2)
	var collect func(s *StructSpec, twice bool)
	seen := map[*StructSpec]bool{}
	collect = func(s *StructSpec, twice bool) {
		if seen[s] {
			return
		}
		seen[s] = true
		for _, f := range s.Fields {
			if f.Embedded != nil {
				if f.FixedType != nil {
					continue // an existing Go type: its tags cannot change
				}
				collect(f.Embedded, twice || shared[f.Embedded] > 1)
			} else if !f.Marker && !f.Shadowed && !f.Ignored {
				leaves = append(leaves, f)
				if twice {
					f.CheckName = "-" // marks: explicit names not allowed (declared twice)
				}
			}
		}
	}
	collect(v2, false)
	nmod := rapid.IntRange(0, 2).Draw(t, "v2.mods")
	for i := 0; i < nmod && len(leaves) > 0; i++ {
		f := rapid.SampledFrom(leaves).Draw(t, fmt.Sprintf("v2.mod%d.field", i))
		noName := f.CheckName == "-"
		indexable := f.Kind.Family != FOpaque || f.Kind.Group == "custom"
		if rapid.Bool().Draw(t, fmt.Sprintf("v2.mod%d.index", i)) {
			if f.Index == "" && indexable {
				f.Index = "index"
				if !noName && rapid.Bool().Draw(t, fmt.Sprintf("v2.mod%d.named", i)) {
					f.Index = "index:idx2_" + strings.ToLower(f.Name)
				}
				added = append(added, "index on "+f.Name)
			}
		} else if f.Check == "" {
			f.Check = rapid.SampledFrom(CheckExprs).Draw(t, fmt.Sprintf("v2.mod%d.chk", i))
			if !noName && rapid.Bool().Draw(t, fmt.Sprintf("v2.mod%d.chkname", i)) {
				f.CheckName = "chk2_" + strings.ToLower(f.Name)
			}
			added = append(added, "check on "+f.Name)
		}
	}
	for _, f := range leaves {
		if f.CheckName == "-" {
			f.CheckName = ""
		}
	}

	// changed definitions of existing columns: unique / default / not null / size added, singly and combined
	{
		// v1 and v2 have the same structure: collect their changeable leaves in the same order
		type pair struct{ old, new *FieldSpec }
		var pairs []pair
		var walk func(a, b *StructSpec, inPtr bool, seen map[*StructSpec]bool)
		walk = func(a, b *StructSpec, inPtr bool, seen map[*StructSpec]bool) {
			if seen[b] {
				return
			}
			seen[b] = true
			for i, fb := range b.Fields {
				if i >= len(a.Fields) {
					break
				}
				fa := a.Fields[i]
				if fb.Embedded != nil {
					if fb.FixedType == nil && shared[fb.Embedded] <= 1 {
						walk(fa.Embedded, fb.Embedded, inPtr || fb.Ptr, seen)
					}
					continue
				}
				if fb.Marker || fb.PrimaryKey || fb.Shadowed || fb.Ignored || inPtr {
					continue
				}
				pairs = append(pairs, pair{fa, fb})
			}
		}
		walk(v1, v2, false, map[*StructSpec]bool{})
		nchg := rapid.IntRange(0, 2).Draw(t, "v2.changes")
		for i := 0; i < nchg && len(pairs) > 0; i++ {
			label := fmt.Sprintf("v2.change%d", i)
			p := rapid.SampledFrom(pairs).Draw(t, label+".field")
			f, k := p.new, p.new.Kind
			var what []string
			mask := rapid.IntRange(1, 15).Draw(t, label+".what")
			if mask&1 != 0 && !f.Unique && !f.DistinctValue && k.distinct != nil && k.Family != FBool && f.Default == nil && f.AutoTime == "" {
				f.Unique, f.DistinctValue = true, true
				if o.NoUniqueNameClash && uniqueNameClash(v2) {
					// listed finding unique-name-collision
					f.Unique, f.DistinctValue = false, false
					if o.OnExcludeTag != nil {
						o.OnExcludeTag("unique-name-collision")
					}
				} else {
					p.old.DistinctValue = true // the existing rows already hold distinct values
					what = append(what, "unique")
				}
			}
			if mask&2 != 0 && f.Default == nil && f.AutoTime == "" {
				var ds []Default
				for _, d := range k.Defaults {
					if !d.DB && !d.NonCanonical {
						ds = append(ds, d)
					}
				}
				if len(ds) > 0 {
					d := rapid.SampledFrom(ds).Draw(t, label+".default")
					f.Default = &d
					what = append(what, "default:"+d.Tag)
				}
			}
			if mask&4 != 0 && !f.NotNull && (f.Default == nil || !f.Default.DB) {
				f.NotNull = true
				p.old.ValuesNotNull = true // the existing rows hold no NULL
				what = append(what, "not null")
			}
			if mask&8 != 0 && k.Family == FString && len(f.Extra) == 0 {
				f.Size = rapid.SampledFrom([]int{24, 64, 512}).Draw(t, label+".size")
				what = append(what, fmt.Sprintf("size:%d", f.Size))
			}
			if len(what) > 0 {
				added = append(added, "changed "+f.Name+": +"+strings.Join(what, " +"))
			}
		}
	}

	// an index named exactly like a column that an earlier-declared index already covers
	if rapid.IntRange(0, 2).Draw(t, "v2.colindex") == 0 {
		if a := AddColumnNamedIndex(t, v2, "v2.colindex"); a != "" {
			added = append(added, a)
		}
	}

	// new fields
	nnew := rapid.IntRange(0, 3).Draw(t, "v2.new")
	if nnew == 0 && len(added) == 0 {
		nnew = 1
	}
	// an embedded block plus an outer field that overrides one of its columns, both new in v2
	if !o.NoEmbedded && rapid.IntRange(0, 3).Draw(t, "v2.shadowblock") == 0 {
		budget := 3
		g := genGroup(t, o, "v2.shadowblock.g", &budget, 1, false)
		g.Prefix = ""
		v2.Fields = append(v2.Fields, g)
		added = append(added, "embedded struct "+g.Name)
		if shadowIn(t, v2, o, len(v2.Fields)-1, "v2.shadowblock") {
			added = append(added, "overriding field for a column of "+g.Name)
		}
	}
	for i := 0; i < nnew; i++ {
		label := fmt.Sprintf("v2.f%d", i)
		if !o.NoEmbedded && rapid.IntRange(0, 4).Draw(t, label+".isgroup") == 0 {
			budget := 3
			g := genGroup(t, o, label, &budget, 1, false)
			v2.Fields = append(v2.Fields, g)
			added = append(added, "embedded struct "+g.Name)
			continue
		}
		f := genLeaf(t, o, label, false)
		v2.Fields = append(v2.Fields, f)
		added = append(added, "field "+f.Name+" "+f.Kind.Name+" `"+f.Tag()+"`")
	}
	return v2, added
}

// ExpectedIndexes lists the index names the model's tags declare on table.
func (m *Model) ExpectedIndexes(table string) []string {
	set := map[string]bool{}
	var out []string
	for _, l := range m.Leaves {
		for _, idx := range strings.Split(l.Spec.Index, ";") {
			if name := indexName(table, l, idx); name != "" && !set[name] {
				set[name] = true
				out = append(out, name)
			}
		}
	}
	return out
}

var plainColumn = regexp.MustCompile(`^[a-z][a-z0-9_]*$`)

// AddColumnNamedIndex gives a top-level field a further index whose explicit
// name is the column name of a field that an index declared earlier already
// covers (the same field or one before it): `index;index:code`. Lower-case
// column names only: gorm's LookIndex also resolves Go field names, so an
// index named like a (capitalised) field name is ambiguous by design.
func AddColumnNamedIndex(t *rapid.T, s *StructSpec, label string) string {
	m := Build(s)
	type cand struct {
		pos int
		col string
	}
	var srcs []cand
	taken := map[string]bool{}
	for _, n := range m.ExpectedIndexes("t") {
		taken[n] = true
	}
	for _, l := range m.Leaves {
		if len(l.Path) == 1 && l.Spec.Index != "" && plainColumn.MatchString(l.DBName) && !taken[l.DBName] {
			srcs = append(srcs, cand{l.Path[0], l.DBName})
		}
	}
	if len(srcs) == 0 {
		return ""
	}
	src := rapid.SampledFrom(srcs).Draw(t, label+".col")
	var targets []*FieldSpec
	for i := src.pos; i < len(s.Fields); i++ {
		f := s.Fields[i]
		if f.Embedded == nil && !f.Marker && (f.Kind.Family != FOpaque || f.Kind.Group == "custom") {
			targets = append(targets, f)
		}
	}
	if len(targets) == 0 {
		return ""
	}
	f := rapid.SampledFrom(targets).Draw(t, label+".on")
	if f.Index == "" {
		f.Index = "index:" + src.col
	} else {
		f.Index += ";index:" + src.col
	}
	return "index named like column " + src.col + " on " + f.Name
}

// indexName: the name an `index…` / `uniqueIndex…` tag part declares. Default names go
// through the naming strategy's formatName (names beyond 64 characters are cut and hashed).
func indexName(table string, l *Leaf, idx string) string {
	if idx == "" {
		return ""
	}
	rest := ""
	if i := strings.Index(idx, ":"); i >= 0 {
		rest = idx[i+1:]
	}
	parts := strings.Split(rest, ",")
	if parts[0] != "" {
		return parts[0] // explicit name
	}
	sub := l.Spec.Name
	for _, o := range parts[1:] {
		if strings.HasPrefix(o, "composite:") {
			sub = strings.TrimPrefix(o, "composite:")
		}
	}
	return schema.NamingStrategy{}.IndexName(table, sub)
}

// ExpectedConstraints lists the check and unique constraint names the tags declare.
func (m *Model) ExpectedConstraints(table string) (checks, uniques []string) {
	for _, l := range m.Leaves {
		if l.Spec.Check != "" {
			if l.Spec.CheckName != "" {
				checks = append(checks, l.Spec.CheckName)
			} else {
				checks = append(checks, schema.NamingStrategy{}.CheckerName(table, l.DBName))
			}
		}
		if l.Spec.Unique {
			// the column part goes through the naming strategy's own case folding ("xMixed" → "x_mixed")
			uniques = append(uniques, schema.NamingStrategy{}.UniqueName(table, l.DBName))
		}
	}
	return
}

// HasMigrationTag reports whether the spec carries an index / constraint / default tag.
func (m *Model) HasMigrationTag() bool {
	for _, l := range m.Leaves {
		s := l.Spec
		if s.Index != "" || s.Unique || s.Check != "" || s.Default != nil || s.NotNull || s.Size > 0 {
			return true
		}
	}
	return false
}

// HasExprDefault reports whether a field carries a parenthesised expression default.
func (m *Model) HasExprDefault() bool {
	for _, l := range m.Leaves {
		if l.Spec.Default != nil && strings.Contains(l.Spec.Default.Tag, "(") {
			return true
		}
	}
	return false
}

// uniqueNameClash: two `unique` columns whose constraint names coincide after the naming strategy's case folding.
func uniqueNameClash(s *StructSpec) bool {
	seen := map[string]bool{}
	for _, l := range Build(s).Leaves {
		if l.Spec.Unique {
			n := schema.NamingStrategy{}.UniqueName("t", l.DBName)
			if seen[n] {
				return true
			}
			seen[n] = true
		}
	}
	return false
}
