// Package recdrv is a recording, fault-injecting database/sql driver wrapped
// around mattn/go-sqlite3. One Recorder belongs to one *sql.DB; every driver
// call made through that pool is logged with its text, arguments, context,
// connection and transaction identity, and can be made to fail by a fault plan.
package recdrv

import (
	"context"
	"database/sql"
	"database/sql/driver"
	"errors"
	"fmt"
	"strings"
	"sync"
	"sync/atomic"

	sqlite3 "github.com/mattn/go-sqlite3"
)

// Kind of a driver event.
const (
	Begin     = "begin"
	Commit    = "commit"
	Rollback  = "rollback"
	Prepare   = "prepare"
	Exec      = "exec"
	Query     = "query"
	StmtClose = "stmt-close"
	ConnOpen  = "conn-open"
	ConnClose = "conn-close"
)

// ErrInjected is the sentinel returned by injected faults.
var ErrInjected = errors.New("recdrv: injected fault")

// Event is one driver call.
type Event struct {
	Seq    int
	Kind   string
	Text   string
	Args   []driver.NamedValue
	Ctx    context.Context
	ConnID int
	TxID   int  // 0 = outside a transaction
	Stmt   bool // exec/query went through a prepared driver statement
	Err    error
}

func (e Event) String() string {
	s := fmt.Sprintf("#%d %s conn=%d tx=%d", e.Seq, e.Kind, e.ConnID, e.TxID)
	if e.Text != "" {
		s += " " + e.Text
	}
	if len(e.Args) > 0 {
		vs := make([]string, len(e.Args))
		for i, a := range e.Args {
			vs[i] = fmt.Sprintf("%v", a.Value)
		}
		s += " [" + strings.Join(vs, ", ") + "]"
	}
	if e.Err != nil {
		s += " -> " + e.Err.Error()
	}
	return s
}

// Fault decides whether the event about to happen fails. It is called with the
// recorder's lock held; idx is the 0-based index of the event among events
// that can be faulted (begin, commit, prepare, exec, query).
type Fault func(idx int, e *Event) error

// Recorder holds the log and the fault plan of one pool.
type Recorder struct {
	mu        sync.Mutex
	events    []Event
	seq       int
	faultable int
	fault     Fault
	recording bool
	openTx    int64
	openStmts int64
	openConns int64
	connSeq   int
	txSeq     int
	dsn       string
	anchor    driver.Conn
	// Hook, if set, is called (without the lock) before every faultable event
	// and statement close; used by schedule-owning checks to park calls.
	Hook func(e *Event)
	// RollbackFault, if set, is asked after a driver-level ROLLBACK has been carried
	// out (the real transaction IS rolled back) whether the driver should report an
	// error for it all the same, e.g. driver.ErrBadConn on a connection that died.
	// Fault plans never touch ROLLBACK; this is a separate, opt-in hook (C04).
	RollbackFault func(e *Event) error

	// rows-iteration tracking (opt-in, see TrackRows): Next calls are counted
	// and faultable separately from the event log, so enabling it changes
	// neither Events() nor the indexes of Faultable()/SetFault.
	trackRows bool
	nextCalls int
	rowsFault RowsFault
}

// RowsFault decides whether the idx-th (0-based, since the last
// Reset/SetRowsFault) driver.Rows.Next call fails; query is the text of the
// statement whose rows are being read.
type RowsFault func(idx int, query string) error

// TrackRows switches the wrapping of result sets on or off. While on, every
// Rows.Next of queries issued afterwards is counted (RowsNexts) and can be
// failed by the plan of SetRowsFault: the failing Next does not reach SQLite
// and returns the plan's error, which database/sql surfaces as rows.Err().
// This is how a driver reports a statement that fails while it is executed
// lazily (SQLite: constraint violation of INSERT/UPDATE/DELETE ... RETURNING).
func (r *Recorder) TrackRows(on bool) { r.mu.Lock(); r.trackRows = on; r.mu.Unlock() }

// SetRowsFault installs (or, with nil, removes) the rows-iteration fault plan
// and resets the Next counter.
func (r *Recorder) SetRowsFault(f RowsFault) {
	r.mu.Lock()
	r.rowsFault = f
	r.nextCalls = 0
	r.mu.Unlock()
}

// FailNthNext returns a plan failing the n-th (0-based) Rows.Next call with err.
func FailNthNext(n int, err error) RowsFault {
	return func(idx int, query string) error {
		if idx == n {
			return err
		}
		return nil
	}
}

// RowsNexts returns the number of Rows.Next calls seen since the last
// Reset/SetRowsFault (only counted while TrackRows is on).
func (r *Recorder) RowsNexts() int { r.mu.Lock(); defer r.mu.Unlock(); return r.nextCalls }

// wrapRows wraps a result set when tracking is on.
func (r *Recorder) wrapRows(rows driver.Rows, query string) driver.Rows {
	r.mu.Lock()
	on := r.trackRows
	r.mu.Unlock()
	if !on || rows == nil {
		return rows
	}
	if sr, ok := rows.(*sqlite3.SQLiteRows); ok {
		return &trackedRows{SQLiteRows: sr, r: r, query: query}
	}
	return rows
}

// trackedRows embeds the SQLite result set (so the optional column-type
// interfaces stay available) and intercepts Next.
type trackedRows struct {
	*sqlite3.SQLiteRows
	r     *Recorder
	query string
}

func (t *trackedRows) Next(dest []driver.Value) error {
	t.r.mu.Lock()
	idx := t.r.nextCalls
	t.r.nextCalls++
	plan := t.r.rowsFault
	if !t.r.recording {
		plan = nil
	}
	t.r.mu.Unlock()
	if plan != nil { // called without the lock: the plan may consult the recorder
		if err := plan(idx, t.query); err != nil {
			return err
		}
	}
	return t.SQLiteRows.Next(dest)
}

var (
	dbSeq    int64
	sqliteDr = &sqlite3.SQLiteDriver{}
)

// NewMemory creates a recorder over a fresh private in-memory SQLite database
// (shared-cache, so that every pooled connection sees the same data; an anchor
// connection keeps it alive until Close).
func NewMemory() *Recorder {
	n := atomic.AddInt64(&dbSeq, 1)
	r := &Recorder{dsn: fmt.Sprintf("file:verifmem%d?mode=memory&cache=shared&_busy_timeout=2000", n), recording: true}
	c, err := sqliteDr.Open(r.dsn)
	if err != nil {
		panic(err)
	}
	r.anchor = c
	return r
}

// DB opens a *sql.DB whose connections are recorded by r.
func (r *Recorder) DB() *sql.DB {
	return sql.OpenDB(connector{r})
}

// Close releases the anchor connection (the in-memory database disappears once
// the pool is closed too).
func (r *Recorder) Close() {
	if r.anchor != nil {
		_ = r.anchor.Close()
		r.anchor = nil
	}
}

// SetFault installs (or, with nil, removes) the fault plan and resets the
// faultable-event counter.
func (r *Recorder) SetFault(f Fault) {
	r.mu.Lock()
	r.fault = f
	r.faultable = 0
	r.mu.Unlock()
}

// FailNth returns a plan failing the n-th (0-based) faultable event with err.
func FailNth(n int, err error) Fault {
	return func(idx int, e *Event) error {
		if idx == n {
			return err
		}
		return nil
	}
}

// Reset clears the log (counters of open objects are kept).
func (r *Recorder) Reset() {
	r.mu.Lock()
	r.events = nil
	r.faultable = 0
	r.nextCalls = 0
	r.mu.Unlock()
}

// Pause / Resume switch logging off and on (fault plans stay active only while recording).
func (r *Recorder) Pause()  { r.mu.Lock(); r.recording = false; r.mu.Unlock() }
func (r *Recorder) Resume() { r.mu.Lock(); r.recording = true; r.mu.Unlock() }

// Events returns a copy of the log.
func (r *Recorder) Events() []Event {
	r.mu.Lock()
	defer r.mu.Unlock()
	return append([]Event(nil), r.events...)
}

// Faultable returns the number of faultable events seen since the last Reset/SetFault.
func (r *Recorder) Faultable() int { r.mu.Lock(); defer r.mu.Unlock(); return r.faultable }

// OpenTx, OpenStmts: transactions begun and not finished / driver statements
// prepared and not closed.
func (r *Recorder) OpenTx() int    { return int(atomic.LoadInt64(&r.openTx)) }
func (r *Recorder) OpenStmts() int { return int(atomic.LoadInt64(&r.openStmts)) }

// Statements returns the exec/query events (the statements proper).
func (r *Recorder) Statements() []Event {
	var out []Event
	for _, e := range r.Events() {
		if e.Kind == Exec || e.Kind == Query {
			out = append(out, e)
		}
	}
	return out
}

func isFaultable(kind string) bool {
	switch kind {
	case Begin, Commit, Prepare, Exec, Query:
		return true
	}
	return false
}

// before logs the event and consults the fault plan; a non-nil error means the
// call must not reach SQLite.
func (r *Recorder) before(e *Event) error {
	if h := r.Hook; h != nil && (isFaultable(e.Kind) || e.Kind == StmtClose) {
		h(e)
	}
	r.mu.Lock()
	defer r.mu.Unlock()
	if !r.recording {
		return nil
	}
	r.seq++
	e.Seq = r.seq
	var err error
	if isFaultable(e.Kind) {
		if r.fault != nil {
			err = r.fault(r.faultable, e)
		}
		r.faultable++
	}
	e.Err = err
	r.events = append(r.events, *e)
	return err
}

func (r *Recorder) setErr(seq int, err error) {
	if err == nil || seq == 0 {
		return
	}
	r.mu.Lock()
	for i := len(r.events) - 1; i >= 0; i-- {
		if r.events[i].Seq == seq {
			r.events[i].Err = err
			break
		}
	}
	r.mu.Unlock()
}

// ---- driver plumbing -----------------------------------------------------------------------

type connector struct{ r *Recorder }

func (c connector) Driver() driver.Driver { return drv{c.r} }
func (c connector) Connect(ctx context.Context) (driver.Conn, error) {
	raw, err := sqliteDr.Open(c.r.dsn)
	if err != nil {
		return nil, err
	}
	c.r.mu.Lock()
	c.r.connSeq++
	id := c.r.connSeq
	c.r.mu.Unlock()
	atomic.AddInt64(&c.r.openConns, 1)
	return &conn{r: c.r, raw: raw.(*sqlite3.SQLiteConn), id: id}, nil
}

type drv struct{ r *Recorder }

func (d drv) Open(string) (driver.Conn, error) { return connector{d.r}.Connect(context.Background()) }

type conn struct {
	r    *Recorder
	raw  *sqlite3.SQLiteConn
	id   int
	txID int
	bad  bool
}

var (
	_ driver.ConnBeginTx        = (*conn)(nil)
	_ driver.ConnPrepareContext = (*conn)(nil)
	_ driver.ExecerContext      = (*conn)(nil)
	_ driver.QueryerContext     = (*conn)(nil)
	_ driver.Pinger             = (*conn)(nil)
	_ driver.Validator          = (*conn)(nil)
	_ driver.SessionResetter    = (*conn)(nil)
)

func (c *conn) IsValid() bool { return !c.bad }

func (c *conn) ResetSession(ctx context.Context) error {
	if c.bad {
		return driver.ErrBadConn
	}
	return nil
}

func (c *conn) fail(err error) error {
	if errors.Is(err, driver.ErrBadConn) {
		c.bad = true
	}
	return err
}

func (c *conn) Ping(ctx context.Context) error { return c.raw.Ping(ctx) }

func (c *conn) Prepare(q string) (driver.Stmt, error) {
	return c.PrepareContext(context.Background(), q)
}

func (c *conn) PrepareContext(ctx context.Context, q string) (driver.Stmt, error) {
	e := &Event{Kind: Prepare, Text: q, Ctx: ctx, ConnID: c.id, TxID: c.txID}
	if err := c.r.before(e); err != nil {
		return nil, c.fail(err)
	}
	s, err := c.raw.PrepareContext(ctx, q)
	if err != nil {
		c.r.setErr(e.Seq, err)
		return nil, err
	}
	atomic.AddInt64(&c.r.openStmts, 1)
	return &stmt{c: c, raw: s.(*sqlite3.SQLiteStmt), text: q}, nil
}

func (c *conn) Close() error {
	e := &Event{Kind: ConnClose, ConnID: c.id}
	_ = c.r.before(e)
	atomic.AddInt64(&c.r.openConns, -1)
	if c.txID != 0 {
		// connection discarded with an open transaction
		c.txID = 0
		atomic.AddInt64(&c.r.openTx, -1)
	}
	return c.raw.Close()
}

func (c *conn) Begin() (driver.Tx, error) { return c.BeginTx(context.Background(), driver.TxOptions{}) }

func (c *conn) BeginTx(ctx context.Context, opts driver.TxOptions) (driver.Tx, error) {
	e := &Event{Kind: Begin, Ctx: ctx, ConnID: c.id}
	if err := c.r.before(e); err != nil {
		return nil, c.fail(err)
	}
	t, err := c.raw.BeginTx(ctx, opts)
	if err != nil {
		c.r.setErr(e.Seq, err)
		return nil, err
	}
	c.r.mu.Lock()
	c.r.txSeq++
	c.txID = c.r.txSeq
	c.r.mu.Unlock()
	atomic.AddInt64(&c.r.openTx, 1)
	return &tx{c: c, raw: t}, nil
}

func (c *conn) ExecContext(ctx context.Context, q string, args []driver.NamedValue) (driver.Result, error) {
	e := &Event{Kind: Exec, Text: q, Args: args, Ctx: ctx, ConnID: c.id, TxID: c.txID}
	if err := c.r.before(e); err != nil {
		return nil, c.fail(err)
	}
	res, err := c.raw.ExecContext(ctx, q, args)
	c.r.setErr(e.Seq, err)
	return res, err
}

func (c *conn) QueryContext(ctx context.Context, q string, args []driver.NamedValue) (driver.Rows, error) {
	e := &Event{Kind: Query, Text: q, Args: args, Ctx: ctx, ConnID: c.id, TxID: c.txID}
	if err := c.r.before(e); err != nil {
		return nil, c.fail(err)
	}
	rows, err := c.raw.QueryContext(ctx, q, args)
	c.r.setErr(e.Seq, err)
	if err != nil {
		return rows, err
	}
	return c.r.wrapRows(rows, q), nil
}

type tx struct {
	c   *conn
	raw driver.Tx
}

func (t *tx) done() {
	if t.c.txID != 0 {
		t.c.txID = 0
		atomic.AddInt64(&t.c.r.openTx, -1)
	}
}

func (t *tx) Commit() error {
	e := &Event{Kind: Commit, ConnID: t.c.id, TxID: t.c.txID}
	if err := t.c.r.before(e); err != nil {
		// a failed COMMIT leaves nothing durable: roll the real transaction
		// back so the connection is clean, and report the fault
		_ = t.raw.Rollback()
		t.done()
		return t.c.fail(err)
	}
	err := t.raw.Commit()
	t.c.r.setErr(e.Seq, err)
	t.done()
	return err
}

func (t *tx) Rollback() error {
	e := &Event{Kind: Rollback, ConnID: t.c.id, TxID: t.c.txID}
	_ = t.c.r.before(e)
	err := t.raw.Rollback()
	t.c.r.setErr(e.Seq, err)
	t.done()
	if f := t.c.r.RollbackFault; err == nil && f != nil {
		if ferr := f(e); ferr != nil {
			t.c.r.setErr(e.Seq, ferr)
			return t.c.fail(ferr)
		}
	}
	return err
}

type stmt struct {
	c      *conn
	raw    *sqlite3.SQLiteStmt
	text   string
	closed bool
}

var (
	_ driver.StmtExecContext  = (*stmt)(nil)
	_ driver.StmtQueryContext = (*stmt)(nil)
)

func (s *stmt) Close() error {
	e := &Event{Kind: StmtClose, Text: s.text, ConnID: s.c.id}
	_ = s.c.r.before(e)
	if !s.closed {
		s.closed = true
		atomic.AddInt64(&s.c.r.openStmts, -1)
	}
	return s.raw.Close()
}

func (s *stmt) NumInput() int { return s.raw.NumInput() }

func (s *stmt) Exec(args []driver.Value) (driver.Result, error) {
	return s.ExecContext(context.Background(), named(args))
}

func (s *stmt) Query(args []driver.Value) (driver.Rows, error) {
	return s.QueryContext(context.Background(), named(args))
}

func named(args []driver.Value) []driver.NamedValue {
	out := make([]driver.NamedValue, len(args))
	for i, a := range args {
		out[i] = driver.NamedValue{Ordinal: i + 1, Value: a}
	}
	return out
}

func (s *stmt) ExecContext(ctx context.Context, args []driver.NamedValue) (driver.Result, error) {
	e := &Event{Kind: Exec, Text: s.text, Args: args, Ctx: ctx, ConnID: s.c.id, TxID: s.c.txID, Stmt: true}
	if err := s.c.r.before(e); err != nil {
		return nil, s.c.fail(err)
	}
	res, err := s.raw.ExecContext(ctx, args)
	s.c.r.setErr(e.Seq, err)
	return res, err
}

func (s *stmt) QueryContext(ctx context.Context, args []driver.NamedValue) (driver.Rows, error) {
	e := &Event{Kind: Query, Text: s.text, Args: args, Ctx: ctx, ConnID: s.c.id, TxID: s.c.txID, Stmt: true}
	if err := s.c.r.before(e); err != nil {
		return nil, s.c.fail(err)
	}
	rows, err := s.raw.QueryContext(ctx, args)
	s.c.r.setErr(e.Seq, err)
	if err != nil {
		return rows, err
	}
	return s.c.r.wrapRows(rows, s.text), nil
}
