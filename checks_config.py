# Per-property configuration of the ./check driver.
# tests[].quick / tests[].thorough: dict(checks=<rapid case count>, shards=<processes>, timeout=<s>, env={...});
# a test without the tier key is not run in that tier. rapid=False: plain (enumerating) Go test.

CHECKS = {
    "C17": dict(
        pkg="./props/c17", level="exploration",
        tests=[
            dict(name="TestC17Guard", rapid=False, quick=dict(), thorough=dict()),
            dict(name="TestC17Exhaustive", rapid=False,
                 quick=dict(shards=4, env={"VERIF_C17_LEN": 2}, timeout=300),
                 thorough=dict(shards=16, env={"VERIF_C17_LEN": 3}, timeout=3000)),
            dict(name="TestC17Random",
                 quick=dict(checks=20000, shards=2, timeout=300),
                 thorough=dict(checks=150000, shards=16, timeout=3000)),
        ],
        assumptions=["built-in callbacks are represented by recording stubs registered under the built-in names in the built-in order (cross-checked against RegisterDefaultCallbacks by TestC17Guard)"],
    ),
}
